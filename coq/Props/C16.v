(* C16 - Only returning Noble-native tokens are processed, under the coin ICS-20 credits.
   String-level theorems (proofs: Proofs/DenomProofs.v).  [trace_path d] is ibc-go's
   ParseDenomTrace(d).Path; [ics20_credit_denom] transcribes what relay.go does with the denom.
   The end-to-end part is stated on the pipeline model: C16_coin, C16_foreign_refused. *)
From Coq Require Import String List ZArith Bool.
From Orbiter Require Import Lib.Str Lib.Res Gen.Constants Model.Env Model.Denom Model.Payload Model.State Model.Pipeline
     Proofs.DenomProofs Proofs.TransferProps Proofs.NoPanic Props.Examples.
Import ListNotations.
Open Scope string_scope.

Theorem C16_accept_iff : forall denom port chan d,
  recover_native_denom denom port chan = Ok d <->
  denom = denom_prefix port chan ++ d /\ trace_path d = [].
Proof. exact recover_native_iff. Qed.
Print Assumptions C16_accept_iff.

Theorem C16_agrees_with_ics20 : forall denom port chan d,
  recover_native_denom denom port chan = Ok d ->
  ics20_credit_denom denom port chan = Unescrow d.
Proof. exact recover_agrees_with_ics20. Qed.
Print Assumptions C16_agrees_with_ics20.

Theorem C16_refuses_foreign : forall denom port chan,
  ics20_credit_denom denom port chan = MintVoucher \/
  ics20_credit_denom denom port chan = UnescrowHashed ->
  is_ok (recover_native_denom denom port chan) = false.
Proof. exact recover_refuses_foreign. Qed.
Print Assumptions C16_refuses_foreign.

Theorem C16_denom_never_panics : forall denom port chan,
  is_panic (recover_native_denom denom port chan) = false.
Proof. exact recover_never_panics. Qed.
Print Assumptions C16_denom_never_panics.

(* end to end, on the receive pipeline: a transfer succeeds only on a token that [recover_native_denom]
   accepts - the one ICS-20 releases from the channel escrow - and that denomination is the one swept,
   charged, forwarded and left at zero on the orbiter account *)
Theorem C16_coin : forall cfg e w p tape,
  wf_cfg cfg ->
  rr_out (recv cfg e w p tape) = OAckOk ->
  exists denom amount sender receiver pl d,
    pk_data p = PIcs denom amount sender receiver (Ok pl) /\
    recover_native_denom denom (pk_sport p) (pk_schan p) = Ok d /\
    ics20_credit_denom denom (pk_sport p) (pk_schan p) = Unescrow d /\
    bal (w_l (rr_world (recv cfg e w p tape))) (cfg_orbiter cfg) d = 0.
Proof.
  intros cfg e w p tape Hwf Hok.
  destruct (success_clears cfg e w p tape Hwf Hok) as (denom & amount & sender & receiver & pl & d & Hd & _ & Hr & Hb & _).
  exists denom, amount, sender, receiver, pl, d. repeat split; try assumption. apply recover_agrees_with_ics20. exact Hr.
Qed.
Print Assumptions C16_coin.

(* a packet addressed to the orbiter account (any spelling) with any other token - a voucher of another
   channel or port, a multi-hop trace, an ibc/ hash, a token native to the sender - is REFUSED by the
   orbiter with an error acknowledgement and an unchanged world; it is not handed to ICS-20, which would
   credit it to the orbiter account *)
Theorem C16_foreign_refused : forall cfg e w p tape denom amount sender receiver memo,
  wf_cfg cfg ->
  pk_data p = PIcs denom amount sender receiver memo ->
  e_bech32 e receiver = Some (cfg_orbiter cfg) ->
  is_panic memo = false ->
  is_ok (recover_native_denom denom (pk_sport p) (pk_schan p)) = false ->
  exists l, rr_out (recv cfg e w p tape) = OAckErr l /\ rr_world (recv cfg e w p tape) = w.
Proof.
  intros cfg e w p tape denom amount sender receiver memo Hwf Hd Hr Hm Hbad.
  destruct (rr_out (recv cfg e w p tape)) as [|l|b|x] eqn:E.
  - exfalso. destruct (success_clears cfg e w p tape Hwf E) as (denom' & amount' & sender' & receiver' & pl & d & Hd' & _ & Hrec & _).
    rewrite Hd in Hd'. inversion Hd'; subst. rewrite Hrec in Hbad. discriminate.
  - exists l. split; [reflexivity|]. unfold recv in *. apply (recv_err_unchanged _ _ _ _ _ _ _ E).
  - exfalso. unfold recv in E. eapply orbiter_packet_not_delegated; eauto.
  - exfalso. unfold recv in E. eapply recv_never_panics; [|exact E]. unfold memo_of. rewrite Hd. exact Hm.
Qed.
Print Assumptions C16_foreign_refused.

Example C16_ex :
  recover_native_denom "transfer/channel-7/uusdc" "transfer" "channel-7" = Ok "uusdc" /\
  recover_native_denom "transfer/channel-7/gamm/pool/1" "transfer" "channel-7" = Ok "gamm/pool/1" /\
  is_ok (recover_native_denom "uusdc" "transfer" "channel-7") = false /\
  is_ok (recover_native_denom "transfer/channel-7/transfer/channel-3/uatom" "transfer" "channel-7") = false /\
  is_ok (recover_native_denom "transfer/channel-8/uusdc" "transfer" "channel-7") = false /\
  recover_native_denom "transfer/channel-7/transfer/channel-3" "transfer" "channel-7" = Ok "transfer/channel-3" /\
  ics20_credit_denom "transfer/channel-7/transfer/channel-3/uatom" "transfer" "channel-7" = UnescrowHashed.
Proof. vm_compute. repeat split; reflexivity. Qed.

(* ---------- on ANY chain, whatever its Hyperlane hooks charge for gas: a transfer that is executed makes the same
   external calls (so hands the route the same coin) and records the same statistics as on the chain without
   charging hooks, where the theorems above describe them ---------- *)
From Orbiter Require Import Proofs.GasHistories.
Theorem C16_any_hooks : forall g cfg e w p tape,
  rr_out (recv_gas g cfg e w p tape 0) = OAckOk ->
  rr_out (recv cfg e w p tape) = OAckOk /\
  rr_trace (recv_gas g cfg e w p tape 0) = rr_trace (recv cfg e w p tape) /\
  rr_stat (recv_gas g cfg e w p tape 0) = rr_stat (recv cfg e w p tape).
Proof.
  intros g cfg e w p tape H. destruct (success_trace_hooks g cfg e w p tape H) as [H1 H2].
  destruct (success_state_hooks g cfg e w p tape H) as [H3 _]. auto.
Qed.
Print Assumptions C16_any_hooks.
