(* C16 - Only returning Noble-native tokens are processed, under the coin ICS-20 credits.
   String-level theorems (proofs: Proofs/DenomProofs.v).  [trace_path d] is ibc-go's
   ParseDenomTrace(d).Path; [ics20_credit_denom] transcribes what relay.go does with the denom.
   The end-to-end part (the coin acted on, forwarded and recorded is the credited coin) is
   C16_coin in Props/C16.v's second half, stated on the pipeline model. *)
From Coq Require Import String List ZArith Bool.
From Orbiter Require Import Lib.Str Lib.Res Model.Denom Proofs.DenomProofs.
Import ListNotations.
Open Scope string_scope.

Theorem C16_accept_iff : forall denom port chan d,
  recover_native_denom denom port chan = Ok d <->
  denom = denom_prefix port chan ++ d /\ trace_path d = [].
Proof. exact recover_native_iff. Qed.
Print Assumptions C16_accept_iff.

Theorem C16_agrees_with_ics20 : forall denom port chan d,
  recover_native_denom denom port chan = Ok d ->
  ics20_credit_denom denom port chan = Unescrow d.
Proof. exact recover_agrees_with_ics20. Qed.
Print Assumptions C16_agrees_with_ics20.

Theorem C16_refuses_foreign : forall denom port chan,
  ics20_credit_denom denom port chan = MintVoucher \/
  ics20_credit_denom denom port chan = UnescrowHashed ->
  is_ok (recover_native_denom denom port chan) = false.
Proof. exact recover_refuses_foreign. Qed.
Print Assumptions C16_refuses_foreign.

Theorem C16_denom_never_panics : forall denom port chan,
  is_panic (recover_native_denom denom port chan) = false.
Proof. exact recover_never_panics. Qed.
Print Assumptions C16_denom_never_panics.

Example C16_ex :
  recover_native_denom "transfer/channel-7/uusdc" "transfer" "channel-7" = Ok "uusdc" /\
  recover_native_denom "transfer/channel-7/gamm/pool/1" "transfer" "channel-7" = Ok "gamm/pool/1" /\
  is_ok (recover_native_denom "uusdc" "transfer" "channel-7") = false /\
  is_ok (recover_native_denom "transfer/channel-7/transfer/channel-3/uatom" "transfer" "channel-7") = false /\
  is_ok (recover_native_denom "transfer/channel-8/uusdc" "transfer" "channel-7") = false /\
  recover_native_denom "transfer/channel-7/transfer/channel-3" "transfer" "channel-7" = Ok "transfer/channel-3" /\
  ics20_credit_denom "transfer/channel-7/transfer/channel-3/uatom" "transfer" "channel-7" = UnescrowHashed.
Proof. vm_compute. repeat split; reflexivity. Qed.
