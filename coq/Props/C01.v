(* C01 - Received funds never stay on the orbiter account.
   [recv cfg e w p tape] is the model of the whole receive path (Model/Pipeline.v); [tape] holds the
   verdicts of the external calls and is universally quantified, like the environment [e] (bech32 and
   integer parsing), the world [w] (any module state, any ledger) and the packet. *)
From Coq Require Import String List ZArith Bool.
From Orbiter Require Import Lib.Res Gen.Constants Model.Env Model.Denom Model.Payload Model.State Model.Pipeline
     Proofs.TransferProps Proofs.NoPanic Proofs.GasCharged Props.Examples.
Import ListNotations.
Open Scope string_scope.
Open Scope Z_scope.

(* success: the packet's receiver decodes to the orbiter account, the credited denomination is the
   recovered native one, nothing of it is left on the orbiter account (whatever was there before
   included), and no balance of any account in any other denomination moved *)
Theorem C01_success_clears : forall cfg e w p tape,
  wf_cfg cfg ->
  rr_out (recv cfg e w p tape) = OAckOk ->
  exists denom amount sender receiver pl d,
    pk_data p = PIcs denom amount sender receiver (Ok pl) /\
    e_bech32 e receiver = Some (cfg_orbiter cfg) /\
    recover_native_denom denom (pk_sport p) (pk_schan p) = Ok d /\
    bal (w_l (rr_world (recv cfg e w p tape))) (cfg_orbiter cfg) d = 0 /\
    forall x d', d' <> d -> bal (w_l (rr_world (recv cfg e w p tape))) x d' = bal (w_l w) x d'.
Proof. exact success_clears. Qed.
Print Assumptions C01_success_clears.

(* the same on ANY chain, whatever its Hyperlane post-dispatch hooks charge for gas ([recv_gas g], any g): a
   success leaves nothing of the delivered denomination on the orbiter account, and no other balance of that
   account grows or goes below zero (the only way one shrinks is the gas payment of open finding 17) *)
Theorem C01_success_clears_any_hooks : forall g cfg e w p tape,
  wf_cfg cfg ->
  rr_out (recv_gas g cfg e w p tape 0) = OAckOk ->
  exists d,
    bal (w_l (rr_world (recv_gas g cfg e w p tape 0))) (cfg_orbiter cfg) d = 0 /\
    forall d', d' <> d -> 0 <= bal (w_l w) (cfg_orbiter cfg) d' ->
      0 <= bal (w_l (rr_world (recv_gas g cfg e w p tape 0))) (cfg_orbiter cfg) d' <= bal (w_l w) (cfg_orbiter cfg) d'.
Proof. exact success_clears_hooks. Qed.
Print Assumptions C01_success_clears_any_hooks.

(* the dichotomy: a packet whose receiver decodes to the orbiter account - under ANY spelling, the
   classification is by the decoded bytes - is never delegated and never panics; so it ends in the
   success above or in an error acknowledgement with the world unchanged (IBC refunds the sender) *)
Theorem C01_dichotomy : forall cfg e w p tape denom amount sender receiver memo,
  pk_data p = PIcs denom amount sender receiver memo ->
  e_bech32 e receiver = Some (cfg_orbiter cfg) ->
  is_panic memo = false ->
  rr_out (recv cfg e w p tape) = OAckOk \/
  exists l, rr_out (recv cfg e w p tape) = OAckErr l /\ rr_world (recv cfg e w p tape) = w.
Proof.
  intros cfg e w p tape denom amount sender receiver memo Hd Hr Hm.
  destruct (rr_out (recv cfg e w p tape)) as [|l|b|x] eqn:E; [left; reflexivity| | |].
  - right. exists l. split; [reflexivity|]. unfold recv in *. apply (recv_err_unchanged _ _ _ _ _ _ _ E).
  - exfalso. unfold recv in E. eapply orbiter_packet_not_delegated; eauto.
  - exfalso. unfold recv in E. eapply recv_never_panics; [|exact E]. unfold memo_of. rewrite Hd. exact Hm.
Qed.
Print Assumptions C01_dichotomy.

(* no packet of any kind ends with a success acknowledgement (the orbiter's, or the wrapped ICS-20
   application's for a delegated packet) and a larger orbiter balance *)
Theorem C01_no_growth : forall cfg e w p tape,
  wf_cfg cfg -> (forall d, 0 <= bal (w_l w) (cfg_orbiter cfg) d) ->
  rr_out (recv cfg e w p tape) = OAckOk \/ rr_out (recv cfg e w p tape) = ODelegated true ->
  forall d, bal (w_l (rr_world (recv cfg e w p tape))) (cfg_orbiter cfg) d <= bal (w_l w) (cfg_orbiter cfg) d.
Proof. exact no_growth. Qed.
Print Assumptions C01_no_growth.

(* non-vacuity: the hypotheses hold on a concrete chain and the success case is inhabited, with coins
   lying on the orbiter account beforehand; an upper-case spelling of the receiver is classified alike *)
Example C01_ex :
  wf_cfg ex_cfg /\ rr_out (ex_run ex_internal []) = OAckOk /\
  bal (w_l (rr_world (ex_run ex_internal []))) orbiter_address_hex "uusdc" = 0 /\
  bal ex_ledger orbiter_address_hex "uusdc" = 3.
Proof. split; [exact ex_cfg_wf|]. vm_compute. repeat split; reflexivity. Qed.
