(* C02 - Every successful transfer conserves value across the whole ledger. *)
From Coq Require Import String List ZArith Bool.
From Orbiter Require Import Lib.Res Gen.Constants Model.Env Model.Fee Model.Payload Model.State Model.Pipeline
     Proofs.Ledger Proofs.PipelineProofs Proofs.TransferProps Proofs.GasProofs Proofs.GasCharged Props.Examples Props.OpenFindings.
Import ListNotations.
Open Scope string_scope.
Open Scope Z_scope.
Open Scope list_scope.

(* the complete list of fund movements of a successful transfer, in order: the coins that were lying on
   the orbiter account go to the dust collector; the escrow releases A; each fee goes from the orbiter
   account to a recipient that is neither the orbiter nor the dust collector; the route's sink (a
   burn, the warp collateral account, or the internal recipient - never the orbiter) receives
   out = A - fees > 0.  The new ledger is the old one with exactly these movements applied. *)
Theorem C02_moves : forall cfg e w p tape,
  wf_cfg cfg ->
  rr_out (recv cfg e w p tape) = OAckOk ->
  exists d A fees sink,
    let orb := cfg_orbiter cfg in
    let prior := bal (w_l w) orb d in
    let out := A - moves_total fees in
    rr_moves (recv cfg e w p tape) =
      sweep_moves cfg d prior ++ [MSend (cfg_escrow cfg (pk_dport p) (pk_dchan p)) orb d A] ++ fees ++ [sink] /\
    w_l (rr_world (recv cfg e w p tape)) = apply_moves (w_l w) (rr_moves (recv cfg e w p tape)) /\
    Forall (fee_move_ok cfg d) fees /\
    route_sink cfg e d out sink /\
    0 < out /\ 0 < A.
Proof. exact success_moves. Qed.
Print Assumptions C02_moves.

(* [recv] is the receive path on a chain none of whose Hyperlane post-dispatch hooks charges the sender for
   gas.  With such hooks ([recv_gas g], any g) a packet whose forwarding does not go through one is handled
   identically, so the theorems of this file apply to it ... *)
Theorem C02_hooks_same : forall g cfg e w p tape,
  pkt_gas_free g p = true -> recv_gas g cfg e w p tape 0 = recv cfg e w p tape.
Proof. intros g cfg e w p tape H. exact (recv_gas_same g cfg e w p tape 0 H). Qed.
Print Assumptions C02_hooks_same.
(* ... and through a hook that does charge, C02 is FALSE of the code as it is (open finding 17): the paymaster's
   account is credited out of the orbiter account, in a denomination that is not the transferred one *)
Theorem C02_open_gas_hook :
  exists g cfg e w p,
    wf_cfg cfg /\ rr_out (recv_gas g cfg e w p [] 0) = OAckOk /\
    In (MSend (cfg_orbiter cfg) "19b0" "ufoo" 9) (rr_moves (recv_gas g cfg e w p [] 0)) /\
    bal (w_l (rr_world (recv_gas g cfg e w p [] 0))) "19b0" "ufoo" = bal (w_l w) "19b0" "ufoo" + 9 /\
    bal (w_l (rr_world (recv_gas g cfg e w p [] 0))) (cfg_orbiter cfg) "ufoo" = bal (w_l w) (cfg_orbiter cfg) "ufoo" - 9.
Proof. exact open_C02_gas_hook. Qed.
Print Assumptions C02_open_gas_hook.

(* ... and this is ALL that a charging hook changes: on any chain (any gas function g) the movements of a
   successful transfer are those of C02_moves followed by at most one more, the gas payment out of the orbiter
   account to the hook's account, in the hook's denomination, positive and within the max fee when that is in
   the same denomination ([gas_ok]); the new ledger is the old one with exactly these movements applied *)
Theorem C02_moves_any_hooks : forall g cfg e w p tape,
  wf_cfg cfg ->
  rr_out (recv_gas g cfg e w p tape 0) = OAckOk ->
  exists d A fees sink extra,
    let orb := cfg_orbiter cfg in
    let prior := bal (w_l w) orb d in
    let out := A - moves_total fees in
    rr_moves (recv_gas g cfg e w p tape 0) =
      (sweep_moves cfg d prior ++ [MSend (cfg_escrow cfg (pk_dport p) (pk_dchan p)) orb d A] ++ fees ++ [sink]) ++ extra /\
    w_l (rr_world (recv_gas g cfg e w p tape 0)) = apply_moves (w_l w) (rr_moves (recv_gas g cfg e w p tape 0)) /\
    Forall (fee_move_ok cfg d) fees /\
    route_sink cfg e d out sink /\
    0 < out /\ 0 < A /\
    (extra = [] \/ exists m, extra = [m] /\ gas_payment cfg g m).
Proof. exact success_moves_hooks. Qed.
Print Assumptions C02_moves_any_hooks.

(* no account that is not a party of one of these movements changes, in any denomination *)
Theorem C02_untouched : forall cfg e w p tape x d,
  rr_out (recv cfg e w p tape) = OAckOk ->
  forallb (fun m => negb (move_touches m x)) (rr_moves (recv cfg e w p tape)) = true ->
  bal (w_l (rr_world (recv cfg e w p tape))) x d = bal (w_l w) x d.
Proof. exact untouched_accounts. Qed.
Print Assumptions C02_untouched.

(* total supply changes only by the route's own movement: minus the burned amount for CCTP, not at
   all when the sink is a send (Hyperlane collateral, internal recipient) *)
Theorem C02_supply : forall cfg e w p tape d',
  wf_cfg cfg ->
  rr_out (recv cfg e w p tape) = OAckOk ->
  exists sink, In sink (rr_moves (recv cfg e w p tape)) /\
    supply (w_l (rr_world (recv cfg e w p tape))) d' = supply (w_l w) d' + snet sink d' /\
    (is_send sink = true -> supply (w_l (rr_world (recv cfg e w p tape))) d' = supply (w_l w) d').
Proof. exact supply_change. Qed.
Print Assumptions C02_supply.

(* the balance of any account after any list of movements is its balance before plus the net of the
   movements: with C02_moves this gives every account's new balance in closed form *)
Theorem C02_balances : forall ms l a d, bal (apply_moves l ms) a d = bal l a d + net_all ms a d.
Proof. exact bal_apply_moves. Qed.
Print Assumptions C02_balances.

Example C02_ex :
  rr_out (ex_run ex_cctp []) = OAckOk /\
  supply (w_l (rr_world (ex_run ex_cctp []))) "uusdc" = 5003 - 983 /\
  bal (w_l (rr_world (ex_run ex_cctp []))) "e5c0channel-0" "uusdc" = 4000 /\
  bal (w_l (rr_world (ex_run ex_cctp []))) "fee1" "uusdc" = 17 /\
  bal (w_l (rr_world (ex_run ex_cctp []))) dust_collector_address_hex "uusdc" = 3.
Proof. vm_compute. repeat split; reflexivity. Qed.
