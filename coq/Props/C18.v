(* C18 - The passthrough payload size limit in force is enforced. *)
From Coq Require Import String List ZArith Bool.
From Orbiter Require Import Lib.Str Lib.Res Gen.Constants Model.Ids Model.Env Model.Payload Model.State Model.Pipeline Model.Msgs
     Proofs.Gates Proofs.HistoryProofs Props.Examples.
Import ListNotations.
Open Scope string_scope.
Open Scope Z_scope.

(* the limit in force after any history is the value most recently set by the authority, or the
   genesis value when it never did (0 when no parameters were ever stored) *)
Theorem C18_limit_in_force : forall cfg e ops w,
  pass_limit (w_o (final_world cfg e w ops)) = fold_left (limit_after (cfg_authority cfg)) ops (pass_limit (w_o w)).
Proof. exact limit_in_force. Qed.
Print Assumptions C18_limit_in_force.

(* a longer passthrough payload: error acknowledgement, before ANY external call - in particular
   before the ICS-20 credit - and the world is unchanged *)
Theorem C18_enforced : forall cfg e w p tape denom amount sender receiver pl f,
  pk_data p = PIcs denom amount sender receiver (Ok pl) ->
  e_bech32 e receiver = Some (cfg_orbiter cfg) -> p_fwd pl = Some f ->
  pass_limit (w_o w) < slen (f_pass f) ->
  (exists l, rr_out (recv cfg e w p tape) = OAckErr l) /\ rr_trace (recv cfg e w p tape) = [] /\ rr_world (recv cfg e w p tape) = w.
Proof. exact oversize_refused. Qed.
Print Assumptions C18_enforced.

(* within the limit it is never refused for that reason: a transfer that succeeds under some limit
   succeeds under every limit its passthrough payload fits *)
Theorem C18_within_limit : forall cfg e w p limit2 denom amount sender receiver pl f,
  rr_out (recv cfg e w p []) = OAckOk ->
  pk_data p = PIcs denom amount sender receiver (Ok pl) -> p_fwd pl = Some f ->
  slen (f_pass f) <= limit2 ->
  rr_out (recv cfg e {| w_o := set_max_pass (w_o w) (Some limit2); w_l := w_l w |} p []) = OAckOk.
Proof.
  intros cfg e w p limit2 denom amount sender receiver pl f H Hd Hf Hlen.
  eapply gates_only; [exact H|reflexivity|].
  intros denom' amount' sender' receiver' pl' f' a cp Hd' Hf' Ha Hcp.
  rewrite Hd in Hd'. inversion Hd'; subst. rewrite Hf in Hf'. inversion Hf'; subst.
  destruct (success_gates _ _ _ _ _ H) as (d2 & a2 & s2 & r2 & pl2 & f2 & at2 & cp2 & Hd2 & Hf2 & Ha2 & Hcp2 & G1 & G2 & G3 & _).
  rewrite Hd in Hd2. inversion Hd2; subst. rewrite Hf in Hf2. inversion Hf2; subst.
  rewrite Ha in Ha2. inversion Ha2; subst. rewrite Hcp in Hcp2. inversion Hcp2; subst.
  cbn. repeat split; auto.
Qed.
Print Assumptions C18_within_limit.

(* with default parameters (none stored: limit 0) only an empty passthrough passes *)
Theorem C18_default : pass_limit empty_ostate = 0.
Proof. reflexivity. Qed.

Example C18_ex :
  (* limit 16 in ex_world; the CCTP example carries 5 bytes *)
  rr_out (ex_run ex_cctp []) = OAckOk /\
  (let w4 := fst (step ex_cfg ex_env ex_world (OMsg authority_address (MUpdateParams 4) [])) in
   rr_out (recv ex_cfg ex_env w4 (ex_packet ex_cctp) []) = OAckErr "passthrough payload too large" /\
   rr_trace (recv ex_cfg ex_env w4 (ex_packet ex_cctp) []) = []) /\
  (let w5 := final_world ex_cfg ex_env ex_world [OMsg authority_address (MUpdateParams 4) []; OMsg "noble1user" (MUpdateParams 0) [];
                                                 OMsg authority_address (MUpdateParams 5) []] in
   pass_limit (w_o w5) = 5 /\ rr_out (recv ex_cfg ex_env w5 (ex_packet ex_cctp) []) = OAckOk).
Proof. vm_compute. repeat split; reflexivity. Qed.

(* ---------- on ANY chain, whatever its Hyperlane hooks charge for gas ---------- *)
From Orbiter Require Import Proofs.GasHistories.
Theorem C18_limit_in_force_any_hooks : forall g cfg e ops w,
  pass_limit (w_o (final_world_gas g cfg e w ops)) = fold_left (limit_after (cfg_authority cfg)) ops (pass_limit (w_o w)).
Proof. exact limit_in_force_gas. Qed.
Print Assumptions C18_limit_in_force_any_hooks.
