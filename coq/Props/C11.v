(* C11 - Coins already on the orbiter account never alter, fund or block a transfer. *)
From Coq Require Import String List ZArith Bool.
From Orbiter Require Import Lib.Res Gen.Constants Model.Ids Model.Env Model.Payload Model.State Model.Pipeline Model.Msgs
     Proofs.Ledger Proofs.PipelineProofs Proofs.TransferProps Proofs.Gates Proofs.GasProofs Proofs.GasExact Props.Examples Props.OpenFindings.
Import ListNotations.
Open Scope string_scope.
Open Scope Z_scope.
Open Scope list_scope.

(* nobody can block a transfer by sending coins to the orbiter account (nor make one succeed): a
   transfer that succeeds on one ledger succeeds on any other ledger - any set of denominations and
   amounts lying on the orbiter account, none included.  (No external call fails: the empty tape.) *)
Theorem C11_cannot_block : forall cfg e w l2 p,
  wf_cfg cfg ->
  rr_out (recv cfg e w p []) = OAckOk ->
  (forall d, 0 <= bal (w_l w) (cfg_orbiter cfg) d) -> (forall d, 0 <= bal l2 (cfg_orbiter cfg) d) ->
  rr_out (recv cfg e {| w_o := w_o w; w_l := l2 |} p []) = OAckOk.
Proof. exact prior_balance_irrelevant. Qed.
Print Assumptions C11_cannot_block.

(* The theorems of this file speak of [recv]: the receive path on a chain none of whose Hyperlane post-dispatch
   hooks charges the sender for gas.  On a chain with such hooks ([recv_gas g], any g) the packets whose
   forwarding does not go through one are handled identically, so the theorems apply to them as they stand ... *)
Theorem C11_hooks_same : forall g cfg e w p tape,
  pkt_gas_free g p = true -> recv_gas g cfg e w p tape 0 = recv cfg e w p tape.
Proof. intros g cfg e w p tape H. exact (recv_gas_same g cfg e w p tape 0 H). Qed.
Print Assumptions C11_hooks_same.
Theorem C11_cannot_block_hooks : forall g cfg e w l2 p,
  wf_cfg cfg -> pkt_gas_free g p = true ->
  rr_out (recv_gas g cfg e w p [] 0) = OAckOk ->
  (forall d, 0 <= bal (w_l w) (cfg_orbiter cfg) d) -> (forall d, 0 <= bal l2 (cfg_orbiter cfg) d) ->
  rr_out (recv_gas g cfg e {| w_o := w_o w; w_l := l2 |} p [] 0) = OAckOk.
Proof.
  intros g cfg e w l2 p Hwf Hg.
  rewrite (recv_gas_same g cfg e w p [] 0 Hg), (recv_gas_same g cfg e {| w_o := w_o w; w_l := l2 |} p [] 0 Hg).
  exact (prior_balance_irrelevant cfg e w l2 p Hwf).
Qed.
Print Assumptions C11_cannot_block_hooks.
(* ... and through a hook that does charge, C11 is FALSE of the code as it is (open finding 17): the hook is
   paid out of whatever lies on the orbiter account in its denomination *)
Theorem C11_open_gas_hook :
  exists g cfg e w l2 p,
    wf_cfg cfg /\
    (forall d, 0 <= bal (w_l w) (cfg_orbiter cfg) d) /\ (forall d, 0 <= bal l2 (cfg_orbiter cfg) d) /\
    rr_out (recv_gas g cfg e w p [] 0) = OAckOk /\
    rr_out (recv_gas g cfg e {| w_o := w_o w; w_l := l2 |} p [] 0) <> OAckOk /\
    bal (w_l (rr_world (recv_gas g cfg e w p [] 0))) (cfg_orbiter cfg) "ufoo" <> bal (w_l w) (cfg_orbiter cfg) "ufoo".
Proof. exact open_C11_gas_hook. Qed.
Print Assumptions C11_open_gas_hook.

(* ... and EXACTLY how: for a packet through a charging hook that succeeds on one ledger, the outcome on any
   other ledger (any coins on the orbiter account, or none) is decided by one thing only - whether the account
   holds the hook's quote q in the hook's denomination gd, coins that have nothing to do with the transfer.
   With them the transfer succeeds (and spends them), without them the same packet is refused. *)
Theorem C11_gas_hook_exact : forall g cfg e w l2 p,
  wf_cfg cfg ->
  pkt_gas_free g p = false ->
  rr_out (recv_gas g cfg e w p [] 0) = OAckOk ->
  (forall d, 0 <= bal (w_l w) (cfg_orbiter cfg) d) -> (forall d, 0 <= bal l2 (cfg_orbiter cfg) d) ->
  exists payee gd q,
    In (MSend (cfg_orbiter cfg) payee gd q) (rr_moves (recv_gas g cfg e w p [] 0)) /\ 0 < q /\
    (rr_out (recv_gas g cfg e {| w_o := w_o w; w_l := l2 |} p [] 0) = OAckOk <-> q <= bal l2 (cfg_orbiter cfg) gd).
Proof. exact gas_hook_exact. Qed.
Print Assumptions C11_gas_hook_exact.

(* and the two runs do the same thing: the same calls with the same requests after the sweep (so
   the same fee credits, the same amount and parameters forwarded), the same movements after the
   sweep, the same statistics and module state *)
Theorem C11_same_outcome : forall cfg e w l2 p tape tape2,
  rr_out (recv cfg e w p tape) = OAckOk ->
  rr_out (recv cfg e {| w_o := w_o w; w_l := l2 |} p tape2) = OAckOk ->
  exists d rest_calls rest_moves,
    rr_trace (recv cfg e w p tape) =
      map (fun c => (c, true)) (sweep_calls d (bal (w_l w) (cfg_orbiter cfg) d) ++ rest_calls) /\
    rr_trace (recv cfg e {| w_o := w_o w; w_l := l2 |} p tape2) =
      map (fun c => (c, true)) (sweep_calls d (bal l2 (cfg_orbiter cfg) d) ++ rest_calls) /\
    rr_moves (recv cfg e w p tape) = sweep_moves cfg d (bal (w_l w) (cfg_orbiter cfg) d) ++ rest_moves /\
    rr_moves (recv cfg e {| w_o := w_o w; w_l := l2 |} p tape2) = sweep_moves cfg d (bal l2 (cfg_orbiter cfg) d) ++ rest_moves /\
    w_o (rr_world (recv cfg e w p tape)) = w_o (rr_world (recv cfg e {| w_o := w_o w; w_l := l2 |} p tape2)).
Proof. exact same_outcome. Qed.
Print Assumptions C11_same_outcome.

(* the pre-existing balance in the transferred denomination ends on the dust collector - it is the
   sweep, the first movement - and is in no fee and not forwarded; other denominations stay (C01) *)
Theorem C11_swept : forall cfg d prior,
  sweep_moves cfg d prior = if 0 <? prior then [MSend (cfg_orbiter cfg) (cfg_dust cfg) d prior] else [].
Proof. reflexivity. Qed.

(* the dust collector is an account the chain's bank blocks (the list is regenerated from the booted application:
   simapp/app.yaml blocked_module_accounts_override): a user's send towards it is refused and changes nothing, so
   what is swept there stays there and nobody can occupy the address before the module account exists *)
Theorem C11_dust_collector_blocked : forall cfg e w from d a,
  step cfg e w (OSend from dust_collector_address_hex d a) = (w, OutSend false).
Proof.
  intros cfg e w from d a. cbn [step].
  assert (H : existsb (String.eqb dust_collector_address_hex) blocked_addresses = true) by (vm_compute; reflexivity).
  rewrite H. reflexivity.
Qed.
Print Assumptions C11_dust_collector_blocked.

Example C11_ex :
  (* 3 uusdc and 9 ufoo lie on the orbiter account; the same transfer on an emptied account *)
  let w0 := {| w_o := w_o ex_world; w_l := ledger_of [(("e5c0channel-0", "uusdc"), 5000)] [("uusdc", 5000)] |} in
  rr_out (ex_run ex_internal []) = OAckOk /\ rr_out (recv ex_cfg ex_env w0 (ex_packet ex_internal) []) = OAckOk /\
  tl (rr_trace (ex_run ex_internal [])) = rr_trace (recv ex_cfg ex_env w0 (ex_packet ex_internal) []) /\
  bal (w_l (rr_world (ex_run ex_internal []))) dust_collector_address_hex "uusdc" = 3 /\
  bal (w_l (rr_world (ex_run ex_internal []))) "user1" "uusdc" =
    bal (w_l (rr_world (recv ex_cfg ex_env w0 (ex_packet ex_internal) []))) "user1" "uusdc".
Proof. vm_compute. repeat split; reflexivity. Qed.
