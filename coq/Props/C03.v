(* C03 - A failure at any step yields an error acknowledgement, never partial success.
   The fault plan is the [tape]: the k-th external call (module-to-module sweep, wrapped ICS-20
   application, each bank send of a fee, the event service, the token query, the bridge message
   server) fails exactly when the k-th verdict is [false].  The theorems hold for EVERY tape, so for
   every single fault, every pair, every combination. *)
From Coq Require Import String List ZArith Bool.
From Orbiter Require Import Lib.Res Gen.Constants Model.Env Model.Denom Model.Payload Model.State Model.Pipeline
     Proofs.Ledger Proofs.PipelineProofs Proofs.TransferProps Proofs.Corollaries Props.Examples.
Import ListNotations.
Open Scope string_scope.
Open Scope Z_scope.
Open Scope list_scope.

(* a success acknowledgement is returned only when every external call of the transfer succeeded *)
Theorem C03_success_all_ok : forall cfg e w p tape,
  rr_out (recv cfg e w p tape) = OAckOk ->
  Forall (fun cv => snd cv = true) (rr_trace (recv cfg e w p tape)).
Proof. exact success_all_ok. Qed.
Print Assumptions C03_success_all_ok.

(* hence: if any call failed, the acknowledgement is not a success *)
Theorem C03_failure_refuses : forall cfg e w p tape c,
  In (c, false) (rr_trace (recv cfg e w p tape)) ->
  rr_out (recv cfg e w p tape) <> OAckOk /\ rr_out (recv cfg e w p tape) <> ODelegated true.
Proof.
  intros cfg e w p tape c Hin. split; intros H.
  - pose proof (success_all_ok _ _ _ _ _ H) as Hall. rewrite Forall_forall in Hall. specialize (Hall _ Hin). discriminate.
  - rewrite (delegated_trace _ _ _ _ _ _ H) in Hin. destruct Hin as [Hin|[]]. inversion Hin.
Qed.
Print Assumptions C03_failure_refuses.

(* success means the transfer ran to its end: the last fund movement is the route's own, the last
   call before the final event is the bridge's, and no bridge call happened before *)
Theorem C03_success_complete : forall cfg e w p tape,
  rr_out (recv cfg e w p tape) = OAckOk ->
  exists pre fcalls rest sink,
    rr_trace (recv cfg e w p tape) = map (fun c => (c, true)) (pre ++ fcalls ++ [CEmit "EventPayloadProcessed"]) /\
    forallb (fun c => negb (is_bridge_call c)) pre = true /\
    fcalls <> [] /\ is_bridge_call (last fcalls CWrapped) = true /\
    rr_moves (recv cfg e w p tape) = rest ++ [sink] /\
    (exists x, sink = MBurn (cfg_orbiter cfg) (move_denom sink) x \/ exists to, sink = MSend (cfg_orbiter cfg) to (move_denom sink) x).
Proof.
  intros cfg e w p tape H.
  destruct (success_trace _ _ _ _ _ H) as (denom & amount & sender & receiver & pl & f & a & d & A & t' & pre & fcalls & fees & sink
    & _ & _ & _ & _ & _ & Hm & _ & _ & _ & Hplan & Ht & Hpre).
  exists pre, fcalls, (sweep_moves cfg d (bal (w_l w) (cfg_orbiter cfg) d) ++
      [MSend (cfg_escrow cfg (pk_dport p) (pk_dchan p)) (cfg_orbiter cfg) d A] ++ fees), sink.
  split; [exact Ht|]. split; [exact Hpre|].
  assert (Hf : fcalls <> [] /\ is_bridge_call (last fcalls CWrapped) = true /\
               (exists x, sink = MBurn (cfg_orbiter cfg) (move_denom sink) x \/ exists to, sink = MSend (cfg_orbiter cfg) to (move_denom sink) x)).
  { pose proof (route_plan_other _ _ _ _ _ _ _ Hplan) as Ha.
    destruct a as [dm rc cl|tk dm rc hk md gs fd fa|rc| |]; try contradiction.
    - apply route_plan_cctp in Hplan as (_ & -> & -> & _). split; [discriminate|]. split; [reflexivity|]. eexists; left; reflexivity.
    - apply route_plan_hyp in Hplan as (_ & -> & -> & _). split; [discriminate|]. split; [reflexivity|]. eexists; right; eexists; reflexivity.
    - apply route_plan_internal in Hplan as (_ & -> & ->). split; [discriminate|]. split; [reflexivity|]. eexists; right; eexists; reflexivity. }
  destruct Hf as (H1 & H2 & H3). split; [exact H1|]. split; [exact H2|]. split; [|exact H3].
  rewrite Hm, <- !app_assoc. reflexivity.
Qed.
Print Assumptions C03_success_complete.

(* an error acknowledgement (the orbiter's, or the wrapped application's own) leaves the world as it
   was: IBC discards the cached context, nothing - no fee in particular - is kept *)
Theorem C03_error_rollback : forall cfg e w p tape,
  (exists l, rr_out (recv cfg e w p tape) = OAckErr l) \/ rr_out (recv cfg e w p tape) = ODelegated false ->
  rr_world (recv cfg e w p tape) = w.
Proof.
  intros cfg e w p tape [[l H]|H]; unfold recv in *.
  - apply (recv_err_unchanged _ _ _ _ _ _ _ H).
  - apply (recv_delegated_false_unchanged _ _ _ _ _ _ H).
Qed.
Print Assumptions C03_error_rollback.

(* non-vacuity: every single fault position of a transfer with two fees over CCTP gives an error
   acknowledgement and the old balances; without fault it succeeds *)
Example C03_ex :
  forallb (fun k => match rr_out (ex_run ex_cctp (repeat true k ++ [false])) with OAckErr _ => true | _ => false end)
          [0; 1; 2; 3; 4; 5; 6]%nat = true /\
  rr_out (ex_run ex_cctp (repeat true 7)) = OAckOk /\ length (rr_trace (ex_run ex_cctp [])) = 7%nat.
Proof. vm_compute. repeat split; reflexivity. Qed.

(* ---------- the same on ANY chain, whatever its Hyperlane hooks charge for gas ([recv_gas g], any g) ---------- *)
From Orbiter Require Import Proofs.GasHistories.
Theorem C03_success_all_ok_any_hooks : forall g cfg e w p tape,
  rr_out (recv_gas g cfg e w p tape 0) = OAckOk ->
  Forall (fun cv => snd cv = true) (rr_trace (recv_gas g cfg e w p tape 0)).
Proof. exact success_all_ok_hooks. Qed.
Print Assumptions C03_success_all_ok_any_hooks.
Theorem C03_failure_refuses_any_hooks : forall g cfg e w p tape c,
  In (c, false) (rr_trace (recv_gas g cfg e w p tape 0)) -> rr_out (recv_gas g cfg e w p tape 0) <> OAckOk.
Proof.
  intros g cfg e w p tape c Hin H. pose proof (success_all_ok_hooks _ _ _ _ _ _ H) as Hall.
  rewrite Forall_forall in Hall. specialize (Hall _ Hin). discriminate.
Qed.
Print Assumptions C03_failure_refuses_any_hooks.
Theorem C03_error_rollback_any_hooks : forall g cfg e w p tape l,
  rr_out (recv_gas g cfg e w p tape 0) = OAckErr l ->
  rr_world (recv_gas g cfg e w p tape 0) = w /\ rr_moves (recv_gas g cfg e w p tape 0) = [].
Proof. intros g cfg e w p tape l. exact (recv_gas_err_unchanged g cfg e w p tape 0 l). Qed.
Print Assumptions C03_error_rollback_any_hooks.
