(* C17 - Genesis export/import round-trips and validated genesis initialises. *)
From Coq Require Import String List ZArith Bool.
From Orbiter Require Import Lib.Str Lib.Res Gen.Constants Model.Ids Model.Env Model.Payload Model.State Model.Pipeline Model.Msgs Model.Genesis
     Proofs.GenesisProofs Proofs.GasHistories Props.Examples.
Import ListNotations.
Open Scope string_scope.
Open Scope Z_scope.

(* any genesis accepted by validation can be initialised (no error, no nil dereference): in
   particular repeated pause entries and identifiers containing the key terminator do not validate *)
Theorem C17_valid_inits : forall g, validate_genesis g = Ok tt -> exists o, init_genesis g = Ok o.
Proof. exact validated_genesis_initialises. Qed.
Print Assumptions C17_valid_inits.

(* the invariant [Inv] (pause sets strictly sorted in store order with valid identifiers, parameters
   stored, statistics maps strictly sorted with valid keys and non-negative, not both zero, totals,
   positive counts) holds after initialisation from a validated genesis and after ANY history of
   packets, messages, deposits and queries *)
Theorem C17_init_invariant : forall g o, validate_genesis g = Ok tt -> init_genesis g = Ok o -> Inv o.
Proof. exact init_establishes_inv. Qed.
Print Assumptions C17_init_invariant.

Theorem C17_history_invariant : forall cfg e ops w, Inv (w_o w) -> Inv (w_o (final_world cfg e w ops)).
Proof. exact history_inv. Qed.
Print Assumptions C17_history_invariant.

(* ... on ANY chain: whatever its Hyperlane hooks charge for gas, a history reaches a world that a history on the
   chain without such hooks reaches too (the gas payments made explicit as plain movements), so the invariant holds *)
Theorem C17_history_invariant_any_hooks : forall g cfg e ops w, Inv (w_o w) -> Inv (w_o (final_world_gas g cfg e w ops)).
Proof. exact history_inv_gas. Qed.
Print Assumptions C17_history_invariant_any_hooks.
Theorem C17_history_invariant_simulated : forall g cfg e ops w, exists ops', final_world_gas g cfg e w ops = final_world cfg e w ops'.
Proof. exact gas_history_simulated. Qed.
Print Assumptions C17_history_invariant_simulated.

(* exporting such a state yields a genesis that passes validation ... *)
Theorem C17_export_valid : forall o, Inv o -> validate_genesis (export_genesis o) = Ok tt.
Proof. exact export_validates. Qed.
Print Assumptions C17_export_valid.

(* ... and initialises a fresh chain to EXACTLY the exported state: the same pause sets, parameters
   and totals, so the re-initialised chain behaves identically (behaviour is a function of the state)
   and re-exports the same genesis *)
Theorem C17_roundtrip : forall o, Inv o -> init_genesis (export_genesis o) = Ok o.
Proof. exact export_init_roundtrip. Qed.
Print Assumptions C17_roundtrip.

Example C17_ex :
  let ops := [OMsg authority_address (MPauseCC "PROTOCOL_CCTP" ["5"; "0"]) []; ORecv (ex_packet ex_hyp) [] 0;
              OMsg authority_address (MPauseCC "PROTOCOL_HYPERLANE" ["0"]) []; OMsg authority_address (MPauseAction "ACTION_SWAP") [];
              ORecv (ex_packet ex_internal) [] 0] in
  let o := w_o (final_world ex_cfg ex_env ex_world ops) in
  paused_cc o = [(protocol_cctp, "0"); (protocol_cctp, "5"); (protocol_hyperlane, "0")] /\
  validate_genesis (export_genesis o) = Ok tt /\ init_genesis (export_genesis o) = Ok o /\
  (* a repeated paused entry, a NUL byte in a counterparty: refused by validation *)
  class (validate_genesis {| g_adapter := Some 0; g_dispatcher := Some ([], []); g_forwarder := Some ([2; 2], []); g_executor := Some [] |}) = 1%nat /\
  class (validate_genesis {| g_adapter := Some 0; g_dispatcher := Some ([], []);
                             g_forwarder := Some ([], [Some {| c_proto := 4; c_cp := bs [97; 0; 98] |}]); g_executor := Some [] |}) = 1%nat.
Proof. vm_compute. repeat split; reflexivity. Qed.
