#!/usr/bin/env python3
"""Regenerate MANIFEST.json from tools/claims.json (the per-property texts) and properties.jsonl."""
import json, os
ROOT = os.path.dirname(os.path.dirname(os.path.abspath(__file__)))
props = [json.loads(l) for l in open(os.path.join(ROOT, "properties.jsonl"))]
claims = json.load(open(os.path.join(ROOT, "tools", "claims.json")))
checks = []
for p in props:
    c = claims.get(p["id"])
    if not c:
        continue
    checks.append({
        "property_id": p["id"], "quick_cmd": f"./check {p['id']} quick", "thorough_cmd": f"./check {p['id']} thorough",
        "evidence_file": f"evidence/{p['id']}.json", "replay_cmd_template": f"./check {p['id']} --replay {{path}}",
        "engine": "coq-corr",
        "level_claimed": {"category": "proof", "text": c["text"], "design_ref": c["ref"]},
        "level_note": c["note"], "technique": c["technique"]})
na = [{"property_id": p["id"], "reason": claims.get("_na", {}).get(p["id"], "check not built yet in this round (work in progress; the design claims it, see DESIGN.md §7)")}
      for p in props if p["id"] not in claims]
man = {
    "version": 1,
    "setup_cmd": "./check setup",
    "hooks": {"guard": "verif", "enable": "none needed: the harness links /repo's packages unmodified (no source hooks)",
              "baseline_off_cmd": "cd /repo && GOPROXY=off go test -vet=off -count=1 ./... && cd simapp && GOPROXY=off go test -vet=off -count=1 ./...",
              "source_commits": [], "add_only": True},
    "engines": [{"name": "coq-corr", "path": "check", "serves_properties": sorted(k for k in claims if not k.startswith("_")),
                 "kind_free_text": "Coq 8.16.1 development (coq/) + Go translator and correspondence harness (harness/) driven by ./check"}],
    "checks": checks,
    "notes": "Machine-checked proof in Coq about an executable model, tied to /repo on every run by a translator (Gen/Constants.v) and a correspondence check evaluated inside Coq (DESIGN.md).",
    "not_applicable": na,
}
json.dump(man, open(os.path.join(ROOT, "MANIFEST.json"), "w"), indent=1)
print("claimed:", [c["property_id"] for c in checks], "not_applicable:", len(na))
