#!/usr/bin/env python3
# usage: mism.py <dir> [shard]  -- classify the correspondence mismatches of a development run (tryfam.sh)
import json,re,glob,sys,collections
d=sys.argv[1]; shard=int(sys.argv[2]) if len(sys.argv)>2 else 50
cases=json.load(open(d+'/cases.json'))
cnt=collections.Counter(); ex={}
for f in sorted(glob.glob(d+'/cases_*.v.out')):
    k=int(re.search(r'cases_(\d+)',f).group(1))
    txt=open(f).read().replace('\n',' ')
    for m in re.finditer(r'\((\d+)%nat, (VL \[.*?)\)(?:;|\])\s*(?=\(\d+%nat|$|\s*:)',txt):
        i=int(m.group(1)); c=cases[k*shard+i]
        key=(c['kind'], str(c['desc'].get('mutation')))
        cnt[key]+=1; ex.setdefault(key,(json.dumps(c['desc'])[:int(sys.argv[3]) if len(sys.argv)>3 else 700], re.sub(r'\s+',' ',m.group(2))[:300]))
for k,v in cnt.most_common(60): print(v,k); print('    ',ex[k][0]); print('    ',ex[k][1])
