#!/bin/bash
# usage: seed_round.sh <round> <Cnn>...   -- for seeds delivered by sub-agents in /tmp/seed<round>-Cnn (worktrees /tmp/wt<round>-Cnn):
#   confirm each in a scratch worktree, store it under /verif/seeded/Cnn-<round>, remove the agent's worktree,
#   then apply each to /repo, run the property's quick check, revert. /repo must be clean and no check may be running.
R=$1; shift
log=/tmp/confirm_round$R.log; : > $log
for P in "$@"; do /verif/tools/confirm_seed.sh $P "" $R 2>&1 | grep -v "^WARN" >> $log; done
grep "demo-without" $log
for P in "$@"; do
  d=/verif/seeded/$P-$R; mkdir -p $d
  cp /tmp/seed$R-$P/patch.diff /tmp/seed$R-$P/zz_seed_*_test.go /tmp/seed$R-$P/notes.md $d/ 2>/dev/null
  rel=$(cd /tmp/wt$R-$P 2>/dev/null && git status --short | grep '^??' | grep zz_seed | awk '{print $2}' | head -1)
  python3 - "$P" "$rel" "$R" "$log" <<'PY'
import json,sys
P,rel,R,log=sys.argv[1:5]
line=[l for l in open(log) if l.startswith(P+': demo-without')]
json.dump({"property":P,"breaks":P,"round":int(R),"demo_test_path_in_repo":rel,
 "origin":"written by an independent sub-agent given only the property text, the mechanisms of the earlier seeds to avoid, and its own scratch worktree",
 "confirmed":{"how":"tools/confirm_seed.sh in a scratch worktree of /repo HEAD (removed afterwards)","result":line[0].strip() if line else ""}},
 open(f'/verif/seeded/{P}-{R}/meta.json','w'),indent=1)
PY
  git -C /repo worktree remove --force /tmp/wt$R-$P 2>/dev/null; rm -rf /tmp/wt$R-$P
done
git -C /repo worktree prune
for P in "$@"; do /verif/tools/try_seed.sh $P-$R $P 2>&1 | grep -v "^WARN" | cut -c1-330; done
