#!/bin/bash
# usage: tryfam.sh <prop> <seed> <n> [shard]   -- run a family and the model on it, print failures and mismatches (development aid)
prop=$1; seed=${2:-1}; n=${3:-300}; shard=${4:-50}
d=/verif/out/$prop/dev; mkdir -p $d; cd $d && rm -f cases_* summary.json
/verif/out/bin/drive -prop $prop -seed $seed -n $n -out . -shard $shard 2>&1 | tail -1
python3 - <<PY
import json
s=json.load(open('summary.json'))
from collections import Counter
c=Counter((f.get('prop',''),f['sig']) for f in s['failures'] or [])
print(dict(c)); print(json.dumps(s['notes'])[:1500]); print('nontrivial', s['distinct_nontrivial'])
seen=set()
for f in (s['failures'] or []):
    if f['sig'] in seen: continue
    seen.add(f['sig']); print('FAIL', f['sig'], '|', f['what'][:400]); print('       ', json.dumps(f['case'])[:900])
PY
ls cases_*.v | xargs -P 16 -I{} sh -c 'coqc -Q /verif/coq Orbiter {} > {}.out 2>&1'
cat cases_*.v.out | grep -v "^M = *$\|list (nat" | cut -c1-400 | head -${5:-30}
