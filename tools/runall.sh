#!/bin/bash
# run every claimed quick check on the current tree and summarise
cd /verif
for P in $(python3 -c "import json; print(' '.join(c['property_id'] for c in json.load(open('MANIFEST.json'))['checks']))"); do
  ./check $P ${1:-quick} > /tmp/runall_$P.log 2>&1; rc=$?
  echo "$P exit=$rc $(tail -1 /tmp/runall_$P.log | cut -c1-160)"
done
