#!/bin/bash
# usage: try_seed.sh <seed id> <property to check> [tier]   -- apply the seeded change to /repo, run the check, undo
seed=$1; prop=$2; tier=${3:-quick}
git -C /repo diff --quiet || { echo "/repo is dirty"; exit 2; }
git -C /repo apply /verif/seeded/$seed/patch.diff || { echo "patch does not apply"; exit 3; }
cd /verif && ./check $prop $tier > /tmp/try_${seed}_${prop}.log 2>&1; rc=$?
git -C /repo apply -R /verif/seeded/$seed/patch.diff 2>/dev/null; git -C /repo checkout -- .; git -C /repo clean -fdq -- . 
echo "seed=$seed check=$prop exit=$rc :: $(grep -c '^VIOLATION' /tmp/try_${seed}_${prop}.log) violation line(s)"
grep '^VIOLATION\|^KNOWN\|oracle failure' /tmp/try_${seed}_${prop}.log | cut -c1-400 | head -6
