#!/bin/bash
# usage: confirm_seed.sh Cnn [patchfile|""] [round-suffix, e.g. 2]   -- confirms a seeded change in a scratch worktree of /repo:
#   demo passes without the patch; with the patch: repo builds, existing suite passes, demo fails.
id=$1; suf=${3:-}; seed=/tmp/seed$suf-$id; patch=${2:-$seed/patch.diff}; [ -z "$patch" ] && patch=$seed/patch.diff
wt=/tmp/confirm-$id
git -C /repo worktree remove --force $wt >/dev/null 2>&1; rm -rf $wt
git -C /repo worktree add --detach $wt HEAD >/dev/null 2>&1 || { echo "$id: cannot create worktree"; exit 2; }
demo=$(ls $seed/zz_seed_*_test.go | head -1)
rel=$(cd /tmp/wt$suf-$id 2>/dev/null && git status --short | grep '^??' | grep zz_seed | awk '{print $2}' | head -1)
[ -z "$rel" ] && rel=$(grep -o '[a-z/]*zz_seed_[A-Za-z0-9_]*_test.go' $seed/notes.md | grep / | head -1)
echo "$id: demo at $rel"
export GOPROXY=off
mod=.; case "$rel" in simapp/*) mod=simapp;; esac
pkg=./$(dirname ${rel#simapp/})
cp $demo $wt/$rel
( cd $wt/$mod && go test -vet=off -count=1 -run 'Seed' $pkg > /tmp/confirm-$id.demo0.log 2>&1 ); r0=$?
rm $wt/$rel
( cd $wt && git apply $patch ) || { echo "$id: PATCH DOES NOT APPLY"; exit 3; }
( cd $wt && go build ./... && cd simapp && go build ./... ) > /tmp/confirm-$id.build.log 2>&1; rb=$?
( cd $wt && go test -vet=off -count=1 ./... > /tmp/confirm-$id.suite.log 2>&1 ); rs=$?
cp $demo $wt/$rel
( cd $wt/$mod && go test -vet=off -count=1 -run 'Seed' $pkg > /tmp/confirm-$id.demo1.log 2>&1 ); r1=$?
echo "$id: demo-without-patch exit=$r0 (want 0) | build=$rb (want 0) | suite-with-patch exit=$rs (want 0) | demo-with-patch exit=$r1 (want !=0)"
git -C /repo worktree remove --force $wt >/dev/null 2>&1
